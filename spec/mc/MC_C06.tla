------------------------------ MODULE MC_C06 ------------------------------
(* sibling tokens of byte widths 1/2/4 separated by one-byte separators; any subset matched; every
   matched token's replaced range may be expanded to the start of an earlier / the end of a later
   sibling (expandStart / expandEnd) or trimmed to a prefix; replacement texts of 0..2 bytes.
   replace_all (overlap-free mode) must propose ordered, disjoint, in-bounds edits and substituting them
   must preserve every byte outside the ranges. *)
EXTENDS Replace, Json, TLC

CONSTANTS MaxTok

VARIABLES widths, matched, reachL, reachR, insLen
vars == <<widths, matched, reachL, reachR, insLen>>

N == Len(widths)
\* token k occupies bytes [Start(k), Start(k)+widths[k]); separators are one byte
RECURSIVE StartOf(_)
StartOf(k) == IF k = 1 THEN 0 ELSE StartOf(k - 1) + widths[k-1] + 1
TextLen == IF N = 0 THEN 0 ELSE StartOf(N) + widths[N]
Text == [i \in 1..TextLen |-> i]               \* every byte is its own identity: preservation is checkable

Init == widths = <<>> /\ matched = {} /\ reachL = <<>> /\ reachR = <<>> /\ insLen = 0
Grow == /\ matched = {} /\ Len(widths) < MaxTok
        /\ \E w \in {1, 2, 4} : widths' = Append(widths, w)
        /\ UNCHANGED <<matched, reachL, reachR, insLen>>
Choose == /\ matched = {} /\ N > 0
          /\ \E M \in (SUBSET (1..N)) \ {{}} :
               /\ matched' = M
               /\ \E l \in [1..N -> 0..1], r \in [1..N -> 0..2] : reachL' = l /\ reachR' = r
          /\ \E k \in 0..2 : insLen' = k
          /\ UNCHANGED widths
Next == Grow \/ Choose
Spec == Init /\ [][Next]_vars

Lo(k) == StartOf(IF k - reachL[k] >= 1 THEN k - reachL[k] ELSE 1)
Hi(k) == LET j == IF k + reachR[k] <= N THEN k + reachR[k] ELSE N IN StartOf(j) + widths[j]
EditOf(k) == [pos |-> Lo(k), del |-> Hi(k) - Lo(k), ins |-> [i \in 1..insLen |-> 0 - k]]   \* fresh bytes

\* matches in document order, one edit each (MakeEdit); siblings never nest, so the overlap-free
\* visit yields all of them
Raw == LET ks == SetToSortSeq(matched, <) IN [i \in 1..Len(ks) |-> EditOf(ks[i])]
\* Node::replace_all since the fix: an edit that overlaps the previous accepted one is dropped
Proposed == FilterOverlap(Raw)

C06 == (matched # {}) =>
         /\ \A k \in 1..Len(Proposed) : InBounds(TextLen, Proposed[k])
         /\ OrderedDisjoint(Proposed)
         /\ LET out == Splice(Text, Proposed) IN
            \* every byte outside the ranges survives, in order; nothing else appears but the insertions
            /\ SelectSeq(out, LAMBDA b : b > 0)
                 = SelectSeq(Text, LAMBDA b : ~\E k \in 1..Len(Proposed) : Proposed[k].pos < b /\ b <= EditEnd(Proposed[k]))
            /\ Len(out) = TextLen - FoldLeft(LAMBDA a, e : a + e.del, 0, Proposed) + insLen * Len(Proposed)

\* direction A: scenarios in which every matched token gets the same expansion (what one rule expresses)
Uniform == \A i, j \in 1..N : reachL[i] = reachL[j] /\ reachR[i] = reachR[j]
Export == (matched # {} /\ Uniform) =>
            PrintT(<<"VEC", ToJson([widths |-> widths, matched |-> [k \in 1..N |-> k \in matched],
                                    el |-> reachL[1], er |-> reachR[1], ins |-> insLen])>>)

\* without the filter the raw edits of expanded sibling matches can overlap: the witness the fix answers
RawCanOverlap == (matched # {}) => OrderedDisjoint(Raw)
=============================================================================
