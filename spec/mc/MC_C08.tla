------------------------------ MODULE MC_C08 ------------------------------
(***************************************************************************)
(* Bounded instance of FixEdit.tla: every array literal `x = [t1, .., tn];` *)
(* over three kinds of elements, every combination of expandStart /          *)
(* expandEnd (none, comma or number rule, stopBy neighbor or end) and the    *)
(* rule "a 7".  For each the model lays out the siblings of every match as   *)
(* tree-sitter does ("[", elements, "," tokens, "]"), computes the edit the  *)
(* property requires and exports the case; the recorder builds the same      *)
(* text and rule, runs every front end of the real tool on it, and            *)
(* Trace_C08 compares.                                                       *)
(***************************************************************************)
EXTENDS FixEdit, Json

CONSTANTS MaxLen

Tok == {"7", "1", "k"}
ExpKinds == {"none", "comma-neighbor", "comma-end", "number-neighbor", "number-end"}
Templates == {"", "8"}

VARIABLES toks, expS, expE, tpl
vars == <<toks, expS, expE, tpl>>

\* children of the array node: "[", t1, ",", t2, ..., "]" with their byte ranges in `x = [t1, t2];`
Children(ts) ==
    <<[tok |-> "[", s |-> 4, e |-> 5]>>
    \o FlattenSeq([i \in 1..Len(ts) |->
          <<[tok |-> ts[i], s |-> 5 + 3 * (i - 1), e |-> 6 + 3 * (i - 1)]>>
          \o (IF i < Len(ts) THEN <<[tok |-> ",", s |-> 6 + 3 * (i - 1), e |-> 7 + 3 * (i - 1)]>> ELSE <<>>)])
    \o <<[tok |-> "]", s |-> 5 + 3 * (Len(ts) - 1) + 1, e |-> 5 + 3 * (Len(ts) - 1) + 2]>>

Hit(kind, tok) == IF kind \in {"comma-neighbor", "comma-end"} THEN tok = "," ELSE tok \in {"7", "1"}
StopOf(kind) == IF kind \in {"comma-end", "number-end"} THEN "end" ELSE "neighbor"
ExpOf == [hasS |-> expS # "none", hasE |-> expE # "none", stopS |-> StopOf(expS), stopE |-> StopOf(expE)]

Ins == IF tpl = "" THEN <<>> ELSE <<56>>      \* "8"
MatchAt(ch, k) ==
    [s |-> ch[k].s, e |-> ch[k].e, mlen |-> -1,
     before |-> [j \in 1..(k - 1) |-> [s |-> ch[k - j].s, e |-> ch[k - j].e, hit |-> Hit(expS, ch[k - j].tok)]],
     after |-> [j \in 1..(Len(ch) - k) |-> [s |-> ch[k + j].s, e |-> ch[k + j].e, hit |-> Hit(expE, ch[k + j].tok)]],
     ins |-> Ins]
Matches == LET ch == Children(toks) IN
           [n \in 1..Cardinality({ k \in 1..Len(ch) : ch[k].tok = "7" }) |->
               MatchAt(ch, (CHOOSE f \in [1..Cardinality({ k \in 1..Len(ch) : ch[k].tok = "7" }) -> { k \in 1..Len(ch) : ch[k].tok = "7" }] :
                              \A a, b \in DOMAIN f : a < b => f[a] < f[b])[n])]

Init == /\ toks \in UNION { [1..n -> Tok] : n \in 1..MaxLen } /\ expS \in ExpKinds /\ expE \in ExpKinds /\ tpl \in Templates
Next == UNCHANGED vars
Spec == Init /\ [][Next]_vars

TextLen == 5 + 3 * (Len(toks) - 1) + 3
\* what the property implies for every case of this family
EditsWellFormed ==
    \A k \in 1..Len(Matches) :
        LET m == Matches[k]  e == EditP(m, ExpOf) IN
        /\ InBounds(TextLen, e)
        /\ e.pos <= m.s /\ m.e <= EditEnd(e)                                   \* an expansion never shrinks the node
        /\ (expS = "none" => e.pos = m.s) /\ (expE = "none" => EditEnd(e) = m.e)
        /\ (expS = "comma-neighbor" /\ e.pos < m.s => e.pos = m.s - 2)          \* exactly the ", " before
\* the two other range computations of the code differ from the fixer's exactly when something expands:
\* a front end that takes one of them shows a different edit (the repaired defects)
OtherRoutesDiffer ==
    \A k \in 1..Len(Matches) :
        LET m == Matches[k] IN
        (EditBy(DefaultRange, m, ExpOf) # EditP(m, ExpOf)) = (EditP(m, ExpOf).pos # m.s \/ EditEnd(EditP(m, ExpOf)) # m.e)
Export == PrintT(<<"VEC", ToJson([toks |-> toks, expS |-> expS, expE |-> expE, tpl |-> tpl,
                                  edits |-> [k \in 1..Len(Matches) |-> [pos |-> EditP(Matches[k], ExpOf).pos, del |-> EditP(Matches[k], ExpOf).del]]])>>)
=============================================================================
