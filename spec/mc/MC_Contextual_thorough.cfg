SPECIFICATION Spec
CONSTANTS MaxNodes = 6  Kinds = 3  Variant = "find"
INVARIANT SelectOK
INVARIANT SubtreeOK
CHECK_DEADLOCK FALSE
