SPECIFICATION Spec
CONSTANTS MaxDocs = 2  MergeDocs = FALSE
INVARIANT C18
CHECK_DEADLOCK FALSE
