------------------------------ MODULE MC_C20 ------------------------------
(* every string up to a bound over the sigil/letter/digit/underscore alphabet (pattern spellings and
   fix templates), every An+B string up to a bound, every text x start x end up to a bound *)
EXTENDS Lexers, Json, TLC

CONSTANTS MaxMv, MaxAnB, MaxSub, ExportMv, ExportAnB, ExportSub

MvAlpha  == {"$", "A", "B", "a", "1", "_", "z"}
AnBAlpha == {"n", "N", "+", "-", "0", "1", "2", "3", " "}
SubAlpha == {"a", "é", "🦀"}
Expandos == {"$", "µ", "_", "z"}
Bounds   == (-7..7) \cup {Absent}

VARIABLES kind, s
vars == <<kind, s>>

Init == kind \in {"mv", "anb", "sub"} /\ s = <<>>
Next == /\ UNCHANGED kind
        /\ \/ kind = "mv"  /\ Len(s) < MaxMv  /\ \E c \in MvAlpha  : s' = Append(s, c)
           \/ kind = "anb" /\ Len(s) < MaxAnB /\ \E c \in AnBAlpha : s' = Append(s, c)
           \/ kind = "sub" /\ Len(s) < MaxSub /\ \E c \in SubAlpha : s' = Append(s, c)
Spec == Init /\ [][Next]_vars

MvOK   == kind = "mv"  => \A e \in Expandos : SpellingOK(e, s)
TplOK  == kind = "mv"  => TemplateOK(s)
AnBInv == kind = "anb" => AnBOK(s, 12)
SubOK  == kind = "sub" => \A st \in Bounds, en \in Bounds : SubstringOK(s, st, en)

\* direction A: the table of cases with the specification's expected meaning
Export ==
    /\ (kind = "mv" /\ Len(s) <= ExportMv /\ s # <<>>) =>
          PrintT(<<"VEC", ToJson([k |-> "mv", s |-> s])>>)
    /\ (kind = "anb" /\ Len(s) <= ExportAnB /\ s # <<>>) =>
          PrintT(<<"VEC", ToJson([k |-> "anb", s |-> s])>>)
    /\ (kind = "sub" /\ Len(s) <= ExportSub /\ s # <<>>) =>
          PrintT(<<"VEC", ToJson([k |-> "sub", s |-> s])>>)
=============================================================================
