\* candidate sibling lists <= 3 over 7 symbols x goal lists <= 3 over 13 symbols x 5 strictness levels
SPECIFICATION Spec
CONSTANTS MaxCand = 3  MaxGoal = 3  ExportMax = 3  DisagreeMax = 5
INVARIANT SoundAndExport
CHECK_DEADLOCK FALSE
