------------------------------ MODULE MC_C18 ------------------------------
(* one file of 8 distinct bytes; 1-3 documents (payloads) each announcing 0-2 edits over its own region; edits
   of one document may nest (overlap).  After all payloads are processed the file must equal the original with
   all accepted edits applied, and the applied count must equal the number of edits present. *)
EXTENDS UpdateAll, Json

CONSTANT MaxDocs

Original == <<1, 2, 3, 4, 5, 6, 7, 8>>
\* candidate edits: [pos, del, ins]; inserted bytes are negative ids
Cands == { [pos |-> p, del |-> d, ins |-> <<0 - (p * 10 + d)>>] : p \in 0..6, d \in 1..2 }
Pairs == { p \in Cands \X Cands : p[1].pos <= p[2].pos }
DiffSeqs == { <<>> } \cup { <<a>> : a \in Cands } \cup { <<p[1], p[2]>> : p \in Pairs }

VARIABLE docs
vars == <<uvars, docs>>

\* a third document announces at most one edit, near the end of the file
LastDocs == { <<>> } \cup { <<a>> : a \in { c \in Cands : c.pos >= 5 } }
Init == /\ docs \in { <<d>> : d \in DiffSeqs } \cup (IF MaxDocs >= 2 THEN { <<d, e>> : d \in DiffSeqs, e \in DiffSeqs } ELSE {})
                  \cup (IF MaxDocs >= 3 THEN { <<d, e, g>> : d \in DiffSeqs, e \in DiffSeqs, g \in LastDocs } ELSE {})
        /\ disk = [f \in {"f"} |-> Original]
        /\ payloads = [k \in 1..Len(docs) |-> [path |-> "f", old |-> Original, diffs |-> docs[k]]]
        /\ committed = 0 /\ accepted = <<>>
Next == Process /\ UNCHANGED docs
Spec == Init /\ [][Next]_vars

Announced == FlattenSeq(docs)
\* documents of one file cover disjoint regions (host vs embedded ranges): edits of different documents never intersect
DisjointDocs == \A a, b \in 1..Len(docs) : a # b =>
                    \A i \in 1..Len(docs[a]), j \in 1..Len(docs[b]) : ~Intersects(docs[a][i], docs[b][j])

C18 == (payloads = <<>> /\ DisjointDocs) =>
          /\ disk["f"] = FinalP(Original, Announced)
          /\ committed = Len(AcceptAll(Announced, 1, <<>>))

Export == (payloads = <<>>) =>
    PrintT(<<"VEC", ToJson([docs |-> [k \in 1..Len(docs) |-> [j \in 1..Len(docs[k]) |-> <<docs[k][j].pos, docs[k][j].del>>]]])>>)
=============================================================================
