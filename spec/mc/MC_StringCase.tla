--------------------------- MODULE MC_StringCase ---------------------------
(* every string up to MaxLen over seven character classes x caseChange on/off *)
EXTENDS StringCase, Json, TLC
CONSTANTS MaxLen, ExportLen
Alpha == { [cls |-> "lo", w |-> 1], [cls |-> "lo", w |-> 2], [cls |-> "up", w |-> 1], [cls |-> "up", w |-> 2],
           [cls |-> "ot", w |-> 1], [cls |-> "ot", w |-> 4], [cls |-> "dl", w |-> 1] }
VARIABLES s, cc
vars == <<s, cc>>
Init == s = <<>> /\ cc \in BOOLEAN
Next == Len(s) < MaxLen /\ \E c \in Alpha : s' = Append(s, c) /\ UNCHANGED cc
Spec == Init /\ [][Next]_vars
\* the machine never cuts inside a character, never leaves the text, never reorders or overlaps words
MachineWellFormed == WellFormed(s, SplitI(s, cc))
\* and loses no character
MachineCovers == Covers(s, SplitI(s, cc))
\* on letters and delimiters it is the documented splitting
MachineIsDocumented == LettersOnly(s) => SplitI(s, cc) = SplitP(s, cc)
Export == (Len(s) <= ExportLen /\ s # <<>>) => PrintT(<<"VEC", ToJson([s |-> s, cc |-> cc, words |-> SplitI(s, cc)])>>)
=============================================================================
