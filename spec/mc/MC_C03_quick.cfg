\* candidate sibling lists <= 3 over 7 symbols x goal lists <= 2 over 13 symbols x 5 strictness levels
SPECIFICATION Spec
CONSTANTS MaxCand = 3  MaxGoal = 2  ExportMax = 3  DisagreeMax = 4
INVARIANT SoundAndExport
CHECK_DEADLOCK FALSE
