SPECIFICATION Spec
CONSTANTS MaxLen = 4  MaxEdits = 1  ExtraEdit = FALSE
INVARIANT OldTreeConsistent
INVARIANT OncePerReparse
INVARIANT PointsOK
INVARIANT Export
CHECK_DEADLOCK FALSE
