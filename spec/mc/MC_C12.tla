------------------------------ MODULE MC_C12 ------------------------------
(* rule documents assembled from valid parts (main rule, utils, constraints, transform, fix, rewriters), every
   combination of variants: the checks the code performs accept exactly the self-consistent documents, and an
   accepted document's fix variables are all substituted *)
EXTENDS Config, Json

R(to, edge) == [to |-> to, edge |-> edge]
U(refs, vs) == [refs |-> refs, vars |-> vs]

Mains == [ m1 |-> [vars |-> {"A"}, refs |-> {}, kinds |-> TRUE],
           m2 |-> [vars |-> {"A"}, refs |-> {R("U1", "same")}, kinds |-> TRUE],
           m3 |-> [vars |-> {"A"}, refs |-> {R("U1", "rel")}, kinds |-> TRUE],
           m4 |-> [vars |-> {}, refs |-> {}, kinds |-> FALSE],
           m5 |-> [vars |-> {"A"}, refs |-> {R("U9", "same")}, kinds |-> TRUE],
           \* references inside nthChild.ofRule: to an undefined utility, to a defined one
           m6 |-> [vars |-> {"A"}, refs |-> {R("U9", "nthof")}, kinds |-> TRUE],
           m7 |-> [vars |-> {"A"}, refs |-> {R("U1", "nthof")}, kinds |-> TRUE],
           \* a variable captured ONLY inside nthChild.ofRule (N): defined for the checker, so a fix that uses it gets its text
           m8 |-> [vars |-> {"A", "N"}, refs |-> {}, kinds |-> TRUE] ]
Utils == [ u0 |-> <<>>,
           u1 |-> [x \in {"U1"} |-> U({}, {})],
           u2 |-> ("U1" :> U({R("U2", "same")}, {})) @@ ("U2" :> U({}, {})),
           u3 |-> [x \in {"U1"} |-> U({R("U1", "same")}, {})],
           u4 |-> ("U1" :> U({R("U2", "same")}, {})) @@ ("U2" :> U({R("U1", "same")}, {})),
           u5 |-> [x \in {"U1"} |-> U({R("U1", "rel")}, {})],
           u6 |-> [x \in {"U1"} |-> U({R("U1", "nthof")}, {})],
           u7 |-> [x \in {"U1"} |-> U({R("U9", "same")}, {})],
           u8 |-> [x \in {"U1"} |-> U({}, {"B"})],
           \* rule objects with several keys: a reference next to a composite rule, `all` next to `any`
           u9  |-> ("U1" :> U({R("U3", "same"), R("U2", "same")}, {})) @@ ("U2" :> U({R("U1", "same")}, {})) @@ ("U3" :> U({}, {})),
           u10 |-> ("U1" :> U({R("U2", "same"), R("U3", "same")}, {})) @@ ("U2" :> U({}, {})) @@ ("U3" :> U({R("U1", "same")}, {})),
           u11 |-> ("U1" :> U({R("U2", "same"), R("U9", "same")}, {})) @@ ("U2" :> U({}, {})),
           u12 |-> ("U1" :> U({R("U2", "same"), R("U3", "same")}, {})) @@ ("U2" :> U({}, {})) @@ ("U3" :> U({R("U2", "same")}, {})),
           \* an undefined utility named inside nthChild.ofRule of a utility
           u13 |-> [x \in {"U1"} |-> U({R("U9", "nthof")}, {})] ]
Cons == [ c0 |-> [keys |-> {}, vars |-> {}, refs |-> {}], c1 |-> [keys |-> {"A"}, vars |-> {}, refs |-> {}],
          c2 |-> [keys |-> {"B"}, vars |-> {}, refs |-> {}], c3 |-> [keys |-> {"A"}, vars |-> {"C"}, refs |-> {}],
          \* constraints that name an undefined utility: inside nthChild.ofRule, directly
          c4 |-> [keys |-> {"A"}, vars |-> {}, refs |-> {R("U9", "nthof")}],
          c5 |-> [keys |-> {"A"}, vars |-> {}, refs |-> {R("U9", "same")}],
          \* two constraints that each capture a new variable (the second constrains what the first captured): a fix
          \* may use the captures of both
          c6 |-> [keys |-> {"A", "C"}, vars |-> {"C", "D"}, refs |-> {}] ]
T(src, rw) == [src |-> src, rewriters |-> rw]
Trans == [ t0 |-> <<>>,
           t1 |-> [x \in {"X"} |-> T("A", {})],
           t2 |-> [x \in {"X"} |-> T("Q", {})],
           t3 |-> [x \in {"X"} |-> T("X", {})],
           t4 |-> ("X" :> T("Y", {})) @@ ("Y" :> T("X", {})),
           t5 |-> ("X" :> T("Y", {})) @@ ("Y" :> T("A", {})),
           t7 |-> [x \in {"X"} |-> T("A", {"R1"})],
           t8 |-> [x \in {"X"} |-> T("A", {"R9"})],
           \* cycles that pass through a rewrite transformation
           t9 |-> [x \in {"X"} |-> T("X", {"R1"})],
           t10 |-> ("X" :> T("Y", {"R1"})) @@ ("Y" :> T("X", {})) ]
Fixes == [ f0 |-> [vars |-> {}, form |-> "string"], f1 |-> [vars |-> {"A"}, form |-> "string"],
           f2 |-> [vars |-> {"X"}, form |-> "string"], f3 |-> [vars |-> {"Z"}, form |-> "string"],
           f4 |-> [vars |-> {"X"}, form |-> "object"], f5 |-> [vars |-> {"A"}, form |-> "object"],
           f6 |-> [vars |-> {"C"}, form |-> "string"],
           f7 |-> [vars |-> {"C", "D"}, form |-> "string"],
           \* an undefined variable whose name BEGINS with the name of a transformation (X): still undefined
           f8 |-> [vars |-> {"XY"}, form |-> "string"],
           f9 |-> [vars |-> {"N"}, form |-> "string"],
           \* the object form WITH an expansion, using a variable that a transformation produces
           f10 |-> [vars |-> {"X"}, form |-> "object"] ]
\* r3: the rewriter's fix uses a variable captured by the enclosing rule (it sees the enclosing environment)
Rews == [ r0 |-> <<>>, r1 |-> [x \in {"R1"} |-> [hasFix |-> TRUE, refs |-> {}]], r2 |-> [x \in {"R1"} |-> [hasFix |-> FALSE, refs |-> {}]],
          r3 |-> [x \in {"R1"} |-> [hasFix |-> TRUE, refs |-> {}]],
          \* rewriters whose rule names an undefined utility: inside nthChild.ofRule, directly
          r4 |-> [x \in {"R1"} |-> [hasFix |-> TRUE, refs |-> {R("U9", "nthof")}]],
          r5 |-> [x \in {"R1"} |-> [hasFix |-> TRUE, refs |-> {R("U9", "same")}]],
          \* rewriters applying rewriters: a chain two deep that ends in an undefined id, a chain that resolves, and a
          \* rewriter the rule never applies whose own transformation names an undefined id
          r6 |-> ("R1" :> [hasFix |-> TRUE, refs |-> {}, uses |-> {"R2"}]) @@ ("R2" :> [hasFix |-> TRUE, refs |-> {}, uses |-> {"R9"}]),
          r7 |-> ("R1" :> [hasFix |-> TRUE, refs |-> {}, uses |-> {"R2"}]) @@ ("R2" :> [hasFix |-> TRUE, refs |-> {}, uses |-> {}]),
          r8 |-> ("R1" :> [hasFix |-> TRUE, refs |-> {}, uses |-> {}]) @@ ("R3" :> [hasFix |-> TRUE, refs |-> {}, uses |-> {"R9"}]) ]

VARIABLES m, u, c, t, f, r
vars == <<m, u, c, t, f, r>>
\* the variants added for references inside nthChild.ofRule / in constraints / in rewriters are combined with a
\* reduced set of the other parts; all earlier variants are combined with each other in full
ExtM == {"m6", "m7", "m8"}  ExtU == {"u13"}  ExtC == {"c4", "c5", "c6"}  ExtR == {"r4", "r5", "r6", "r7", "r8"}
Small == [m |-> {"m1", "m2"}, u |-> {"u0", "u1", "u2"}, c |-> {"c0", "c1"}, t |-> {"t0", "t1", "t7"}, f |-> {"f0", "f1", "f2", "f7", "f8", "f9", "f10"}, r |-> {"r0", "r1"}]
Init == \/ /\ m \in DOMAIN Mains \ ExtM /\ u \in DOMAIN Utils \ ExtU /\ c \in DOMAIN Cons \ ExtC
           /\ t \in DOMAIN Trans /\ f \in DOMAIN Fixes \ {"f7", "f9"} /\ r \in DOMAIN Rews \ ExtR
        \/ /\ m \in Small.m \cup ExtM /\ u \in Small.u \cup ExtU /\ c \in Small.c \cup ExtC
           /\ t \in Small.t /\ f \in Small.f /\ r \in Small.r \cup ExtR
           /\ (m \in ExtM \/ u \in ExtU \/ c \in ExtC \/ r \in ExtR)
Next == UNCHANGED vars
Spec == Init /\ [][Next]_vars

Doc == [ mainVars |-> Mains[m].vars, mainRefs |-> Mains[m].refs, hasKinds |-> Mains[m].kinds,
         utils |-> Utils[u], consKeys |-> Cons[c].keys, consVars |-> Cons[c].vars, consRefs |-> Cons[c].refs,
         trans |-> Trans[t], fixVars |-> Fixes[f].vars, fixForm |-> Fixes[f].form, rewriters |-> Rews[r] ]

AcceptAgree == AcceptImpl(Doc) = Accept(Doc)
FixFlowsOK == (AcceptImpl(Doc) /\ Accept(Doc)) => \A v \in Doc.fixVars : FixSubstitutedImpl(Doc, v)

Export == PrintT(<<"VEC", ToJson([m |-> m, u |-> u, c |-> c, t |-> t, f |-> f, r |-> r,
                                  acceptP |-> Accept(Doc), acceptI |-> AcceptImpl(Doc)])>>)
=============================================================================
