SPECIFICATION Spec
CONSTANTS LookBehind = 40  MaxSite = 2  MaxExtra = 3  MaxLines = 2
INVARIANT C07
INVARIANT SelfRewrite
INVARIANT Export
CHECK_DEADLOCK FALSE
