---------------------------- MODULE MC_Positions ----------------------------
(* every text up to MaxLen characters over {newline, 1-, 2-, 4-byte character}:
   the backward byte scan of get_char_column and the forward scan of position_for_offset
   agree with the declarative line / character column / byte column *)
EXTENDS Positions, TLC
CONSTANT MaxLen
VARIABLE cw
Init == cw = <<>>
Next == Len(cw) < MaxLen /\ \E c \in {0, 1, 2, 4} : cw' = Append(cw, c)
Spec == Init /\ [][Next]_cw
Agree == PositionsAgree(cw)
=============================================================================
