----------------------------- MODULE MC_C11cfg -----------------------------
(* project configurations (sgconfig.yml): every single and every pair of deviations from the default configuration *)
EXTENDS RuleDocGen, Json
VARIABLE cfg
CInit == cfg \in CfgDocs /\ doc = Default
CNext == UNCHANGED <<cfg, doc>>
CSpec == CInit /\ [][CNext]_<<cfg, doc>>
CWellTyped == \A f \in CfgFields : cfg[f] \in CfgClasses[f]
CExport == PrintT(<<"VEC", ToJson(cfg)>>)
=============================================================================
