SPECIFICATION CSpec
CONSTANT MaxDeviations = 2
INVARIANT CWellTyped
INVARIANT CExport
CHECK_DEADLOCK FALSE
