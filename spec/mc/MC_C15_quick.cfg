SPECIFICATION Spec
CONSTANT Full = FALSE
INVARIANT C15
INVARIANT Export
CHECK_DEADLOCK FALSE
