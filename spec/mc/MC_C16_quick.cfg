SPECIFICATION Spec
CONSTANTS MaxLen = 5  MaxCtx = 1
INVARIANT ContextOK
INVARIANT PrinterOK
CHECK_DEADLOCK FALSE
