SPECIFICATION Spec
CONSTANTS MaxLines = 2  MULTI = TRUE
INVARIANT C14
INVARIANT Export
CHECK_DEADLOCK FALSE
