\* candidate lists <= 3 over 7 symbols x all hole sets x all tails x 5 strictness levels
SPECIFICATION Spec
CONSTANTS MaxCand = 3  ExportMax = 3
INVARIANT CutMatches
CHECK_DEADLOCK FALSE
