SPECIFICATION Spec
CONSTANTS MaxCases = 3
INVARIANT C09_Verdicts
INVARIANT C13_UpdateSettles
INVARIANT Export
CHECK_DEADLOCK FALSE
