SPECIFICATION Spec
INVARIANT AgreeEverywhere
CHECK_DEADLOCK FALSE
