SPECIFICATION Spec
CONSTANTS MaxMv = 6  MaxAnB = 6  MaxSub = 5  ExportMv = 5  ExportAnB = 4  ExportSub = 3
INVARIANT MvOK
INVARIANT TplOK
INVARIANT AnBInv
INVARIANT SubOK
INVARIANT Export
CHECK_DEADLOCK FALSE
