---------------------------- MODULE WorkerUnion ----------------------------
(* Unbounded (any set of files, any set of threads, any outcomes) proof, checked by TLAPS, of the central clause of
   C17 for the pipeline model Worker.tla: when the run is over, what has been printed is EXACTLY the set of items of
   the files that could be processed - nothing lost, nothing foreign (theorem UnionAlways).  Inductive invariant:
   Sound (everything in the channel or printed is an item its thread has already sent) and Complete (every item sent
   so far is in the channel or printed), over TypeOK and Busy (a file in progress has left the queue, belongs to one
   thread only; a finished walk leaves nobody busy).  Together with WorkerProofs (every file handed out exactly once)
   this is the model-level statement "the findings of a tree are the union of the findings of its files, for any
   thread count and schedule"; TLC checks the same on 4 files x 2-3 threads including the absence of duplicates and
   termination, which are not part of this proof. *)
EXTENDS Worker, TLAPS, SequenceTheorems

ASSUME NoFileNotAFile == NoFile \notin Files
ASSUME OutcomeType == Outcome \in [Files -> Nat \cup {FailOutcome}]

Rng(s) == { s[k] : k \in 1..Len(s) }
Delivered == Rng(chan) \cup Rng(printed)

TypeOK == /\ queue \subseteq Files
          /\ cur \in [Threads -> Files \cup {NoFile}]
          /\ left \in [Threads -> Nat]
          /\ chan \in Seq(Files \X Nat)
          /\ printed \in Seq(Files \X Nat)

Busy == /\ \A t \in Threads : cur[t] # NoFile => cur[t] \notin queue /\ left[t] <= Items(cur[t])
        /\ \A t1, t2 \in Threads : (cur[t1] = cur[t2] /\ cur[t1] # NoFile) => t1 = t2
        /\ (walkDone => queue = {} /\ \A t \in Threads : cur[t] = NoFile)
        /\ (consumerDone => walkDone /\ chan = <<>>)

\* everything delivered is an item of a file that has been handed out, below what its thread has sent so far
Sound == \A x \in Delivered : /\ x[1] \in Files \ queue /\ x[2] \in Nat /\ x[2] < Items(x[1])
                              /\ \A t \in Threads : cur[t] = x[1] => x[2] < Items(x[1]) - left[t]
\* every item sent so far has been delivered
Complete == \A f \in Files \ queue : \A i \in Nat :
               (i < Items(f) /\ \A t \in Threads : cur[t] = f => i < Items(f) - left[t]) => <<f, i>> \in Delivered

Inv == TypeOK /\ Busy /\ Sound /\ Complete

LEMMA ItemsNat == \A f \in Files : Items(f) \in Nat
  BY OutcomeType DEF Items, FailOutcome

LEMMA RngAppend == ASSUME NEW S, NEW s \in Seq(S), NEW e \in S PROVE Rng(Append(s, e)) = Rng(s) \cup {e}
  BY DEF Rng
LEMMA RngHeadTail == ASSUME NEW S, NEW s \in Seq(S), s # <<>> PROVE Rng(s) = {Head(s)} \cup Rng(Tail(s))
<1>1. Len(s) \in Nat /\ Len(s) > 0 /\ Head(s) = s[1]
  BY EmptySeq, LenProperties, HeadTailProperties
<1>2. Tail(s) \in Seq(S) /\ Len(Tail(s)) = Len(s) - 1 /\ \A j \in 1..Len(Tail(s)) : Tail(s)[j] = s[j + 1]
  BY HeadTailProperties
<1>3. \A k \in 1..Len(s) : k = 1 \/ (k - 1 \in 1..Len(Tail(s)) /\ s[k] = Tail(s)[k - 1])
  BY <1>1, <1>2
<1>4. \A j \in 1..Len(Tail(s)) : j + 1 \in 1..Len(s)
  BY <1>1, <1>2
<1> QED
  BY <1>1, <1>2, <1>3, <1>4 DEF Rng

THEOREM InitInv == Init => Inv
  BY ItemsNat DEF Init, Inv, TypeOK, Busy, Sound, Complete, Delivered, Rng

THEOREM EndState == Inv /\ consumerDone => Rng(printed) = { x \in Files \X Nat : x[2] < Items(x[1]) }
<1> SUFFICES ASSUME Inv, consumerDone PROVE Rng(printed) = { x \in Files \X Nat : x[2] < Items(x[1]) }
  OBVIOUS
<1>1. chan = <<>> /\ queue = {} /\ \A t \in Threads : cur[t] = NoFile
  BY DEF Inv, Busy
<1>2. Rng(chan) = {}
  BY <1>1 DEF Rng
<1>3. Delivered = Rng(printed)
  BY <1>2 DEF Delivered
<1>4. \A x \in Rng(printed) : x \in Files \X Nat
  BY DEF Inv, TypeOK, Rng
<1>5. \A x \in Rng(printed) : x[2] < Items(x[1])
  BY <1>3 DEF Inv, Sound
<1>6. \A f \in Files, i \in Nat : i < Items(f) => <<f, i>> \in Rng(printed)
  BY <1>1, <1>3, NoFileNotAFile DEF Inv, Complete
<1>7. \A x \in Files \X Nat : x = <<x[1], x[2]>> /\ x[1] \in Files /\ x[2] \in Nat
  OBVIOUS
<1> QED
  BY <1>4, <1>5, <1>6, <1>7

THEOREM StepInv == Inv /\ [Next]_vars => Inv'
<1> SUFFICES ASSUME Inv, [Next]_vars PROVE Inv'
  OBVIOUS
<1> USE ItemsNat, NoFileNotAFile
<1>1. ASSUME NEW t \in Threads, NEW f \in Files, Take(t, f) PROVE Inv'
  <2>1. TypeOK'
    BY <1>1 DEF Inv, TypeOK, Take
  <2>2. Busy'
    BY <1>1 DEF Inv, TypeOK, Busy, Take
  <2>3. Delivered' = Delivered
    BY <1>1 DEF Take, Delivered, Rng
  <2>4. Sound'
    BY <1>1, <2>3 DEF Inv, TypeOK, Busy, Sound, Take
  <2>5. Complete'
    BY <1>1, <2>3 DEF Inv, TypeOK, Busy, Complete, Take
  <2> QED BY <2>1, <2>2, <2>4, <2>5 DEF Inv
<1>2. ASSUME NEW t \in Threads, Fail(t) PROVE Inv'
  <2>1. TypeOK'
    BY <1>2 DEF Inv, TypeOK, Fail
  <2>2. Busy'
    BY <1>2 DEF Inv, TypeOK, Busy, Fail
  <2>3. Delivered' = Delivered
    BY <1>2 DEF Fail, Delivered, Rng
  <2>4. Items(cur[t]) = 0
    BY <1>2 DEF Fail, Items
  <2>5. Sound'
    BY <1>2, <2>3 DEF Inv, TypeOK, Busy, Sound, Fail
  <2>6. Complete'
    BY <1>2, <2>3, <2>4 DEF Inv, TypeOK, Busy, Complete, Fail
  <2> QED BY <2>1, <2>2, <2>5, <2>6 DEF Inv
<1>3. ASSUME NEW t \in Threads, Send(t) PROVE Inv'
  <2> DEFINE f == cur[t]
             new == <<f, Items(f) - left[t]>>
  <2>0. f \in Files /\ left[t] \in Nat /\ left[t] > 0 /\ left[t] <= Items(f) /\ Items(f) \in Nat /\ f \notin queue
    BY <1>3 DEF Inv, TypeOK, Busy, Send
  <2>1. new \in Files \X Nat
    BY <2>0
  <2>2. TypeOK'
    BY <1>3, <2>1 DEF Inv, TypeOK, Send
  <2>3. Busy'
    BY <1>3, <2>0 DEF Inv, TypeOK, Busy, Send
  <2>4. Delivered' = Delivered \cup {new}
    BY <1>3, <2>1, RngAppend DEF Inv, TypeOK, Send, Delivered
  <2>5. Sound'
    BY <1>3, <2>0, <2>4 DEF Inv, TypeOK, Busy, Sound, Send
  <2>6. Complete'
    BY <1>3, <2>0, <2>4 DEF Inv, TypeOK, Busy, Complete, Send
  <2> QED BY <2>2, <2>3, <2>5, <2>6 DEF Inv
<1>4. ASSUME NEW t \in Threads, Finish(t) PROVE Inv'
  <2>1. TypeOK'
    BY <1>4 DEF Inv, TypeOK, Finish, FinishWith
  <2>2. Busy'
    BY <1>4 DEF Inv, TypeOK, Busy, Finish, FinishWith
  <2>3. Delivered' = Delivered
    BY <1>4 DEF Finish, FinishWith, Delivered, Rng
  <2>4. Sound'
    BY <1>4, <2>3 DEF Inv, TypeOK, Busy, Sound, Finish, FinishWith
  <2>5. Complete'
    BY <1>4, <2>3 DEF Inv, TypeOK, Busy, Complete, Finish, FinishWith
  <2> QED BY <2>1, <2>2, <2>4, <2>5 DEF Inv
<1>5. ASSUME WalkDone PROVE Inv'
  BY <1>5 DEF Inv, TypeOK, Busy, Sound, Complete, WalkDone, Delivered, Rng
<1>6. ASSUME Recv PROVE Inv'
  <2>0. chan \in Seq(Files \X Nat) /\ chan # <<>> /\ printed \in Seq(Files \X Nat)
    BY <1>6 DEF Inv, TypeOK, Recv
  <2>1. Head(chan) \in Files \X Nat /\ Tail(chan) \in Seq(Files \X Nat)
    BY <2>0, HeadTailProperties
  <2>2. TypeOK'
    BY <1>6, <2>1 DEF Inv, TypeOK, Recv
  <2>3. Busy'
    BY <1>6 DEF Inv, TypeOK, Busy, Recv
  <2>4. Delivered' = Delivered
    BY <1>6, <2>0, <2>1, RngAppend, RngHeadTail DEF Recv, Delivered
  <2>5. Sound'
    BY <1>6, <2>4 DEF Inv, Sound, Recv
  <2>6. Complete'
    BY <1>6, <2>4 DEF Inv, Complete, Recv
  <2> QED BY <2>2, <2>3, <2>5, <2>6 DEF Inv
<1>7. ASSUME ConsumerDone PROVE Inv'
  BY <1>7 DEF Inv, TypeOK, Busy, Sound, Complete, ConsumerDone, Delivered, Rng
<1>8. ASSUME UNCHANGED vars PROVE Inv'
  BY <1>8 DEF Inv, TypeOK, Busy, Sound, Complete, vars, Delivered, Rng
<1> QED
  BY <1>1, <1>2, <1>3, <1>4, <1>5, <1>6, <1>7, <1>8 DEF Next

\* C17, at the end of a run: what was printed is exactly the items of the files that could be processed
THEOREM UnionAlways == Spec => [](consumerDone => Rng(printed) = { x \in Files \X Nat : x[2] < Items(x[1]) })
<1>1. Init /\ [][Next]_vars => []Inv
  BY InitInv, StepInv, PTL
<1> QED
  BY <1>1, EndState, PTL DEF Spec
=============================================================================
