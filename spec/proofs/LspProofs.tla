----------------------------- MODULE LspProofs -----------------------------
(* Unbounded (any number of notifications, versions and concurrent handlers) proof, checked by TLAPS, that with the
   repaired protocol (Protocol = "fix", commit 6e9d336) the document entry is never kept locked across an await and
   the server never wedges: lock = 0 and ~dead in every reachable state of Lsp.tla.  TLC checks the same invariant
   (NoDeadlock) on bounded histories in MC_C09 and finds the wedge for Protocol = "pre". *)
EXTENDS Lsp, TLAPS

Unlocked == lock = 0 /\ ~dead

THEOREM InitUnlocked == Init => Unlocked
  BY DEF Init, Unlocked

THEOREM StepUnlocked == ASSUME Fix PROVE Unlocked /\ [Next]_vars => Unlocked'
<1> SUFFICES ASSUME Unlocked, [Next]_vars PROVE Unlocked'
  OBVIOUS
<1>1. ASSUME Send PROVE Unlocked'
  BY <1>1 DEF Send, Unlocked
<1>2. ASSUME Dispatch PROVE Unlocked'
  BY <1>2 DEF Dispatch, Unlocked, Fix
<1>3. ASSUME NEW h \in hs, Step(h) PROVE Unlocked'
  BY <1>3, Fix DEF Step, OpenSkip, OpenPublishPre, OpenInsertPre, OpenConfirmFix, ChangeStore, ChangePublish, Unlocked, Fix, Publish, Done, Set
<1>4. ASSUME UNCHANGED vars PROVE Unlocked'
  BY <1>4 DEF vars, Unlocked
<1> QED
  BY <1>1, <1>2, <1>3, <1>4 DEF Next

THEOREM NeverWedges == ASSUME Fix PROVE Spec => []NoDeadlock
<1>1. Init /\ [][Next]_vars => []Unlocked
  BY InitUnlocked, StepUnlocked, PTL
<1>2. Unlocked => NoDeadlock
  BY DEF Unlocked, NoDeadlock
<1> QED
  BY <1>1, <1>2, PTL DEF Spec
=============================================================================
