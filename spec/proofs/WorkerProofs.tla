---------------------------- MODULE WorkerProofs ----------------------------
(* Unbounded (any set of files, any set of threads, any Outcome) proof, checked by TLAPS, of the
   "each eligible file is processed at most once / exactly once when the run is over" clause of C17 for the
   pipeline model Worker.tla.  TLC checks the same statements on small instances (MC_C17). *)
EXTENDS Worker, TLAPS

\* the inductive invariant: a file has been handed out exactly when it has left the queue
HandedOut == /\ queue \subseteq Files
             /\ taken \in [Files -> {0, 1}]
             /\ \A f \in Files : taken[f] = IF f \in queue THEN 0 ELSE 1
             /\ (consumerDone => walkDone)
             /\ (walkDone => queue = {})

THEOREM InitHandedOut == Init => HandedOut
  BY DEF Init, HandedOut

THEOREM StepHandedOut == HandedOut /\ [Next]_vars => HandedOut'
<1> SUFFICES ASSUME HandedOut, [Next]_vars PROVE HandedOut'
  OBVIOUS
<1>1. ASSUME NEW t \in Threads, NEW f \in Files, Take(t, f) PROVE HandedOut'
  BY <1>1 DEF HandedOut, Take
<1>2. ASSUME NEW t \in Threads, Fail(t) PROVE HandedOut'
  BY <1>2 DEF HandedOut, Fail
<1>3. ASSUME NEW t \in Threads, Send(t) PROVE HandedOut'
  BY <1>3 DEF HandedOut, Send
<1>4. ASSUME NEW t \in Threads, Finish(t) PROVE HandedOut'
  BY <1>4 DEF HandedOut, Finish, FinishWith
<1>5. ASSUME WalkDone PROVE HandedOut'
  BY <1>5 DEF HandedOut, WalkDone
<1>6. ASSUME Recv PROVE HandedOut'
  BY <1>6 DEF HandedOut, Recv
<1>7. ASSUME ConsumerDone PROVE HandedOut'
  BY <1>7 DEF HandedOut, ConsumerDone
<1>8. ASSUME UNCHANGED vars PROVE HandedOut'
  BY <1>8 DEF HandedOut, vars
<1> QED
  BY <1>1, <1>2, <1>3, <1>4, <1>5, <1>6, <1>7, <1>8 DEF Next

THEOREM HandedOutImpliesExactlyOnce == HandedOut => ExactlyOnce
  BY DEF HandedOut, ExactlyOnce

THEOREM ExactlyOnceAlways == Spec => []ExactlyOnce
<1>1. Init /\ [][Next]_vars => []HandedOut
  BY InitHandedOut, StepHandedOut, PTL
<1> QED
  BY <1>1, HandedOutImpliesExactlyOnce, PTL DEF Spec
=============================================================================
