--------------------------- MODULE ProjectProofs ---------------------------
(***************************************************************************)
(* TLAPS: inside C15's slice the two readings of Project.tla coincide, for *)
(* ANY layout (directories and files are arbitrary sequences of segments): *)
(* a run started in the project directory d with a clean relative argument *)
(* `segs` walks the files f below d \o segs, and for each of them the path *)
(* as walked (segs followed by f's path below the argument) IS f's path    *)
(* relative to the project directory.                                       *)
(***************************************************************************)
EXTENDS Naturals, Sequences, SequenceTheorems, TLAPS

IsUnder(d, f) == Len(f) >= Len(d) /\ SubSeq(f, 1, Len(d)) = d
Below(d, f) == SubSeq(f, Len(d) + 1, Len(f))

LEMMA BelowConcat ==
    ASSUME NEW S, NEW d \in Seq(S), NEW segs \in Seq(S), NEW f \in Seq(S), IsUnder(d \o segs, f)
    PROVE  Below(d, f) = segs \o Below(d \o segs, f)
<1> DEFINE t == d \o segs
<1>1. Len(t) = Len(d) + Len(segs) /\ t \in Seq(S)
  BY ConcatProperties
<1>2. Len(f) >= Len(t) /\ SubSeq(f, 1, Len(t)) = t
  BY DEF IsUnder
<1>3. \A i \in 1..Len(t) : f[i] = t[i]
  BY <1>1, <1>2, SubSeqProperties
<1>4. \A i \in 1..Len(segs) : t[Len(d) + i] = segs[i]
  BY ConcatProperties
<1> DEFINE L == Below(d, f)
           R == segs \o Below(t, f)
<1>5. L \in Seq(S) /\ Len(L) = Len(f) - Len(d) /\ \A i \in 1..(Len(f) - Len(d)) : L[i] = f[Len(d) + i]
  BY <1>1, <1>2, SubSeqProperties DEF Below
<1>6. Below(t, f) \in Seq(S) /\ Len(Below(t, f)) = Len(f) - Len(t) /\ \A i \in 1..(Len(f) - Len(t)) : Below(t, f)[i] = f[Len(t) + i]
  BY <1>1, <1>2, SubSeqProperties DEF Below
<1>7. R \in Seq(S) /\ Len(R) = Len(segs) + (Len(f) - Len(t))
      /\ \A i \in 1..Len(R) : R[i] = IF i <= Len(segs) THEN segs[i] ELSE Below(t, f)[i - Len(segs)]
  BY <1>6, ConcatProperties
<1>8. Len(L) = Len(R)
  BY <1>1, <1>5, <1>7
<1>9. \A i \in 1..Len(L) : L[i] = R[i]
  <2> TAKE i \in 1..Len(L)
  <2>1. CASE i <= Len(segs)
    BY <2>1, <1>1, <1>2, <1>3, <1>4, <1>5, <1>7, <1>8
  <2>2. CASE i > Len(segs)
    BY <2>2, <1>1, <1>2, <1>5, <1>6, <1>7, <1>8
  <2> QED BY <2>1, <2>2
<1> QED
  BY <1>5, <1>7, <1>8, <1>9, SeqEqual
=============================================================================
