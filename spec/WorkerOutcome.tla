--------------------------- MODULE WorkerOutcome ---------------------------
(***************************************************************************)
(* What C17 requires of one `sg run -j N` execution, stated on what the    *)
(* run printed (no hook needed): the printed records are, as a bag, the    *)
(* union of the per-file runs; the output parsed; scanned = files of the   *)
(* tree, skipped = faulty files; exit status 0 (1 for `scan` with an      *)
(* error-level rule and a finding).  Cfg is the first record               *)
(* of the trace.  Shared by Trace_Worker (step-by-step validation against  *)
(* Worker.tla) and Trace_WorkerBig (runs too long to validate stepwise).   *)
(***************************************************************************)
EXTENDS Naturals, Sequences, FiniteSets, SequencesExt

BagOfSeq(s) == [x \in ToSet(s) |-> Cardinality({ k \in 1..Len(s) : s[k] = x })]
OutcomeReasonsOf(Cfg) ==
    (IF Cfg.parsed THEN {} ELSE {"output-not-well-formed"})
    \cup (IF BagOfSeq(Cfg.printed) = BagOfSeq(Cfg.expected) THEN {}
          ELSE IF ToSet(Cfg.printed) \ ToSet(Cfg.expected) # {} THEN {"record-not-in-any-per-file-run"}
          ELSE IF ToSet(Cfg.expected) \ ToSet(Cfg.printed) # {} THEN {"record-lost"} ELSE {"record-duplicated"})
    \cup (IF Cfg.scanned = Cfg.n_files THEN {} ELSE {"scanned-count"})
    \cup (IF Cfg.skipped = Cfg.faulty THEN {} ELSE {"skipped-count"})
    \cup (IF Cfg.exit = Cfg.expect_exit THEN {} ELSE {"exit-status"})
=============================================================================
