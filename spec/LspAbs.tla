------------------------------- MODULE LspAbs -------------------------------
(***************************************************************************)
(* What a client can observe of the language server's document handling:   *)
(* the notifications it sent (sequence of [kind, ver, text]) and the        *)
(* publishDiagnostics it received (sequence of [ver, text], a text standing *)
(* for its diagnostics).  No variables: used by Lsp.tla (the handler        *)
(* model) and by Trace_C09.tla (recorded histories of the real server).     *)
(***************************************************************************)
EXTENDS Naturals, Sequences, FiniteSets

MaxOf(S) == CHOOSE x \in S : \A y \in S : y <= x
OpensOf(sent) == { i \in 1..Len(sent) : sent[i].kind = "open" }
ClosesOf(sent) == { i \in 1..Len(sent) : sent[i].kind = "close" }
\* the client considers the document open
OpenAfter(sent) == OpensOf(sent) # {} /\ (ClosesOf(sent) = {} \/ MaxOf(OpensOf(sent)) > MaxOf(ClosesOf(sent)))
\* texts of the current session: since the last open
SessionOf(sent) == { i \in MaxOf(OpensOf(sent))..Len(sent) : sent[i].kind \in {"open", "change"} }
\* index of the highest-version text received in the current session
NewestOf(sent) == CHOOSE i \in SessionOf(sent) : \A j \in SessionOf(sent) : sent[j].ver <= sent[i].ver
\* versions identify texts within a session (they may arrive in any order)
VersionsDistinct(sent) ==
    \A i, j \in 1..Len(sent) :
        (i < j /\ sent[i].kind # "close" /\ sent[j].kind = "change" /\ sent[i].ver = sent[j].ver)
            => \E k \in (i + 1)..j : sent[k].kind = "open"

\* C09, history clause, on a quiescent server
NewestPublishedOf(sent, pubs, outside) ==
    (OpenAfter(sent) /\ ~outside) => (pubs # <<>> /\ pubs[Len(pubs)].text = sent[NewestOf(sent)].text)
NothingOutsideOf(pubs, outside) == outside => pubs = <<>>
=============================================================================
