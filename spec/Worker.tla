------------------------------- MODULE Worker -------------------------------
(***************************************************************************)
(* The multiple-producer / single-consumer pipeline of the CLI             *)
(* (crates/cli/src/utils/worker.rs run_worker, Items).                     *)
(*                                                                         *)
(* Walker threads take files from the walk (each file is handed out once), *)
(* produce the items of the file (or fail: unreadable / empty / invalid    *)
(* file) and send them over a channel; one consumer thread prints what it  *)
(* receives; when every walker thread is done the channel closes and the   *)
(* consumer finishes (after_print).                                        *)
(***************************************************************************)
EXTENDS Naturals, Sequences, FiniteSets, Bags, TLC

CONSTANTS Files,        \* set of files of the walk
          Outcome,      \* Outcome[f] = -1 (the file cannot be processed) or the number of items file f produces
          Threads       \* set of walker threads

NoFile == "-"
FailOutcome == 0 - 1       \* Outcome[f] = FailOutcome: produce_item fails for f (invalid / empty / oversized file)

VARIABLES queue,      \* files not yet handed out
          cur,        \* cur[t]: file thread t is working on, or NoFile
          left,       \* left[t]: items of cur[t] still to send
          chan,       \* the channel: sequence of <<file, i>>
          printed,    \* what the consumer has printed, in order
          scanned, skipped,
          walkDone, consumerDone,
          taken,      \* history: how often each file was handed out
          acc         \* the shared tally that decides the exit status of `scan` (ScanWithConfig.error_count):
                      \* acc.total is the shared counter, acc.base[t] what thread t read when it took its file
vars == <<queue, cur, left, chan, printed, scanned, skipped, walkDone, consumerDone, taken, acc>>

Items(f) == IF Outcome[f] = FailOutcome THEN 0 ELSE Outcome[f]

Init == /\ queue = Files /\ cur = [t \in Threads |-> NoFile] /\ left = [t \in Threads |-> 0]
        /\ chan = <<>> /\ printed = <<>> /\ scanned = 0 /\ skipped = 0
        /\ walkDone = FALSE /\ consumerDone = FALSE /\ taken = [f \in Files |-> 0]
        /\ acc = [total |-> 0, base |-> [t \in Threads |-> 0]]

\* file_start: a walker thread receives the next file of the walk
Take(t, f) == /\ cur[t] = NoFile /\ f \in queue /\ ~walkDone
              /\ queue' = queue \ {f} /\ cur' = [cur EXCEPT ![t] = f]
              /\ left' = [left EXCEPT ![t] = Items(f)]
              /\ scanned' = scanned + 1 /\ taken' = [taken EXCEPT ![f] = @ + 1]
              /\ acc' = [acc EXCEPT !.base[t] = acc.total]
              /\ UNCHANGED <<chan, printed, skipped, walkDone, consumerDone>>
\* file_skip: produce_item failed; the file is skipped, the walk continues
Fail(t) == /\ cur[t] # NoFile /\ Outcome[cur[t]] = FailOutcome
           /\ skipped' = skipped + 1 /\ cur' = [cur EXCEPT ![t] = NoFile]
           /\ UNCHANGED <<queue, left, chan, printed, scanned, walkDone, consumerDone, taken, acc>>
\* send: one item of the current file goes into the channel
Send(t) == /\ cur[t] # NoFile /\ Outcome[cur[t]] # FailOutcome /\ left[t] > 0
           /\ chan' = Append(chan, <<cur[t], Items(cur[t]) - left[t]>>)
           /\ left' = [left EXCEPT ![t] = @ - 1]
           /\ UNCHANGED <<queue, cur, printed, scanned, skipped, walkDone, consumerDone, taken, acc>>
\* file_done.  The file's findings are added to the shared tally with one atomic read-modify-write (fetch_add);
\* the code does it at the end of produce_item, before the sends - atomic additions commute, so the model may
\* place it anywhere between Take and Finish
FinishWith(t, newTotal) ==
             /\ cur[t] # NoFile /\ Outcome[cur[t]] # FailOutcome /\ left[t] = 0
             /\ cur' = [cur EXCEPT ![t] = NoFile]
             /\ acc' = [acc EXCEPT !.total = newTotal]
             /\ UNCHANGED <<queue, left, chan, printed, scanned, skipped, walkDone, consumerDone, taken>>
Finish(t) == FinishWith(t, acc.total + Items(cur[t]))
\* the variant the model must reject (witness, MC_C17_witness.cfg): the tally read at Take plus the file's
\* findings is written back - a read-modify-write split over two steps
FinishSplit(t) == FinishWith(t, acc.base[t] + Items(cur[t]))
\* walk_done: the walk is exhausted and every thread is idle: all senders are dropped
WalkDone == /\ ~walkDone /\ queue = {} /\ \A t \in Threads : cur[t] = NoFile
            /\ walkDone' = TRUE
            /\ UNCHANGED <<queue, cur, left, chan, printed, scanned, skipped, consumerDone, taken, acc>>
\* recv
Recv == /\ chan # <<>> /\ ~consumerDone
        /\ printed' = Append(printed, Head(chan)) /\ chan' = Tail(chan)
        /\ UNCHANGED <<queue, cur, left, scanned, skipped, walkDone, consumerDone, taken, acc>>
\* chan_closed + consume_done: the channel is empty and closed
ConsumerDone == /\ walkDone /\ chan = <<>> /\ ~consumerDone
                /\ consumerDone' = TRUE
                /\ UNCHANGED <<queue, cur, left, chan, printed, scanned, skipped, walkDone, taken, acc>>

Next == \/ \E t \in Threads : (\E f \in Files : Take(t, f)) \/ Fail(t) \/ Send(t) \/ Finish(t)
        \/ WalkDone \/ Recv \/ ConsumerDone
Spec == Init /\ [][Next]_vars /\ WF_vars(Next)
NextSplit == \/ \E t \in Threads : (\E f \in Files : Take(t, f)) \/ Fail(t) \/ Send(t) \/ FinishSplit(t)
             \/ WalkDone \/ Recv \/ ConsumerDone
SpecSplit == Init /\ [][NextSplit]_vars

\* ---- C17 --------------------------------------------------------------------
ExactlyOnce == /\ \A f \in Files : taken[f] <= 1
               /\ consumerDone => \A f \in Files : taken[f] = 1
AllItems == { <<f, i>> : f \in { g \in Files : Outcome[g] # FailOutcome }, i \in 0..8 } \cap
            { p \in Files \X (0..8) : Outcome[p[1]] # FailOutcome /\ p[2] < Outcome[p[1]] }
Union == consumerDone =>
            /\ { printed[k] : k \in 1..Len(printed) } = AllItems
            /\ Len(printed) = Cardinality(AllItems)                     \* no duplicates
            /\ skipped = Cardinality({ f \in Files : Outcome[f] = FailOutcome })
            /\ scanned = Cardinality(Files)
\* the tally is the number of findings of the tree: the exit status (tally > 0) is the OR of the per-file runs
Tally == walkDone => acc.total = Cardinality(AllItems)
\* items of one file arrive in order
PerFileOrder == \A a, b \in 1..Len(printed) : (a < b /\ printed[a][1] = printed[b][1]) => printed[a][2] < printed[b][2]
Terminates == <>consumerDone
=============================================================================
