------------------------------ MODULE TopoSort ------------------------------
(***************************************************************************)
(* TopologicalSort of crates/config/src/rule/deserialize_env.rs, used for  *)
(* `utils`, global utility rules and `transform`.  The keys live in a      *)
(* HashMap: the order in which get_order visits them is NOT determined by  *)
(* the document (it changes with the process' hash seed), so it is left    *)
(* open here - `iter` is any permutation of the keys.                      *)
(*                                                                         *)
(* Deps[k] = the keys k depends on (references that stay on the same node  *)
(* for rules; the source variable for a transformation).  A dependency on  *)
(* something that is not a key is ignored ("can be found elsewhere").      *)
(***************************************************************************)
EXTENDS Naturals, Sequences, FiniteSets, TLC

CONSTANTS Keys

VARIABLES Deps,      \* the dependency graph of the document (chosen initially, never changes)
          iter,      \* the map's iteration order for this run
          pos,       \* index into iter of the next top-level visit
          stack,     \* DFS stack: sequence of [key, todo (deps still to visit)]
          seen,      \* key :> "open" | "done"   (absent = not seen)
          order,     \* the result so far
          err        \* "" or the key reported as cyclic
vars == <<Deps, iter, pos, stack, seen, order, err>>

Perms(S) == { p \in [1..Cardinality(S) -> S] : \A a, b \in 1..Cardinality(S) : p[a] = p[b] => a = b }
SeqOfSet(S) == CHOOSE p \in Perms(S) : TRUE        \* the dependencies of one key are visited in a fixed order

Init == /\ Deps \in [Keys -> SUBSET (Keys \cup {"zz"})]
        /\ iter \in Perms(Keys) /\ pos = 1 /\ stack = <<>>
        /\ seen = [k \in {} |-> ""] /\ order = <<>> /\ err = ""

Put(f, k, v) == [x \in DOMAIN f \cup {k} |-> IF x = k THEN v ELSE f[x]]

\* visit(key) entered
Enter(k) == IF k \notin Keys THEN UNCHANGED <<stack, seen, order, err>>                 \* "key can be found elsewhere"
            ELSE IF k \in DOMAIN seen THEN
                 (IF seen[k] = "done" THEN UNCHANGED <<stack, seen, order, err>>
                  ELSE err' = k /\ UNCHANGED <<stack, seen, order>>)                    \* seen but not completed: cycle
            ELSE /\ seen' = Put(seen, k, "open")
                 /\ stack' = Append(stack, [key |-> k, todo |-> SeqOfSet(Deps[k])])
                 /\ UNCHANGED <<order, err>>

\* get_order: next key of the map
TopVisit == /\ err = "" /\ stack = <<>> /\ pos <= Len(iter)
            /\ Enter(iter[pos]) /\ pos' = pos + 1 /\ UNCHANGED <<iter, Deps>>
\* inside visit: next dependency of the key on top of the stack
DepVisit == /\ err = "" /\ stack # <<>> /\ stack[Len(stack)].todo # <<>>
            /\ LET top == stack[Len(stack)]  d == Head(top.todo)
                   popped == [stack EXCEPT ![Len(stack)] = [key |-> top.key, todo |-> Tail(top.todo)]] IN
               IF d \notin Keys \/ (d \in DOMAIN seen /\ seen[d] = "done") THEN stack' = popped /\ UNCHANGED <<seen, order, err>>
               ELSE IF d \in DOMAIN seen THEN err' = d /\ stack' = popped /\ UNCHANGED <<seen, order>>
               ELSE /\ seen' = Put(seen, d, "open")
                    /\ stack' = Append(popped, [key |-> d, todo |-> SeqOfSet(Deps[d])])
                    /\ UNCHANGED <<order, err>>
            /\ UNCHANGED <<iter, pos, Deps>>
\* all dependencies visited: mark completed and emit
Finish == /\ err = "" /\ stack # <<>> /\ stack[Len(stack)].todo = <<>>
          /\ LET k == stack[Len(stack)].key IN
               /\ seen' = Put(seen, k, "done") /\ order' = Append(order, k)
               /\ stack' = SubSeq(stack, 1, Len(stack) - 1)
          /\ UNCHANGED <<iter, pos, err, Deps>>
Next == TopVisit \/ DepVisit \/ Finish
Spec == Init /\ [][Next]_vars

Done == err # "" \/ (stack = <<>> /\ pos > Len(iter))

\* ---- properties (C13): hold for EVERY iteration order -----------------------
RECURSIVE Reach(_, _)
Reach(frontier, acc) == LET nx == (UNION { Deps[k] \cap Keys : k \in frontier }) \ acc IN
                        IF nx = {} THEN acc ELSE Reach(nx, acc \cup nx)
HasCycle == \E k \in Keys : k \in Reach({k}, {})
Index(s, x) == CHOOSE i \in 1..Len(s) : s[i] = x

CycleFound == Done => ((err # "") <=> HasCycle)
Topological == (Done /\ err = "") =>
                  /\ Len(order) = Cardinality(Keys) /\ { order[i] : i \in 1..Len(order) } = Keys
                  /\ \A a \in Keys : \A b \in Deps[a] \cap Keys : Index(order, b) < Index(order, a)
\* a value computed along the order (each key reads the values of its dependencies) does not depend on the order
RECURSIVE ValueAlong(_, _, _)
ValueAlong(ord, i, acc) ==
    IF i > Len(ord) THEN acc
    ELSE LET k == ord[i] IN
         ValueAlong(ord, i + 1, Put(acc, k, [key |-> k, from |-> { IF d \in DOMAIN acc THEN acc[d] ELSE [key |-> d, from |-> {"<unbound>"}] : d \in Deps[k] \cap Keys }]))
RECURSIVE TrueValue(_)
TrueValue(k) == [key |-> k, from |-> { TrueValue(d) : d \in Deps[k] \cap Keys }]
OrderFree == (Done /\ err = "") => \A k \in Keys : ValueAlong(order, 1, <<>>)[k] = TrueValue(k)
=============================================================================
