----------------------------- MODULE FrontEnds -----------------------------
(***************************************************************************)
(* The findings of one rule set on one text, as each front end shows them.  *)
(*                                                                         *)
(* A finding is [rule, s, e, sp, ep, msg, sev]: rule id, byte range,        *)
(* start/end position <<line, column in characters, column in UTF-16        *)
(* units>> (0-based), message with variables substituted, severity.        *)
(*                                                                         *)
(* ref  = the findings of the library scan (CombinedScan over the enabled   *)
(*        rules of the text's language, suppressions applied, with the      *)
(*        unused-suppression pseudo rule at `hint`)                         *)
(* raw  = what each rule of the language matches by itself (find_all), no   *)
(*        suppression, `off` rules included                                 *)
(* rules = [id, lang, sev, hasmsg, hasnote, note] of the rule documents     *)
(*                                                                         *)
(* P (Expected..) : what the property requires a front end to show          *)
(* I (Impl..)     : what the route of the code to that front end shows      *)
(*   scan <file>            ScanWithConfig::produce_item  (scan.rs)         *)
(*   scan --stdin           ScanStdin::parse_stdin        (scan.rs)         *)
(*   --json=…               JSONPrinter                   (json_print.rs)   *)
(*   --format github        CloudPrinter print_rule       (cloud_print.rs)  *)
(*   default report         ColoredPrinter                (colored_print.rs)*)
(*   sg test                CaseStatus::verify_valid      (case_result.rs)  *)
(*   language server        Backend::get_diagnostics, utils.rs              *)
(***************************************************************************)
EXTENDS Naturals, Sequences, FiniteSets

Unused == "unused-suppression"
\* the unused-suppression pseudo rule is on (hint) when all project rules are scanned and in the language
\* server; it is off with -r / --inline-rules and therefore with --stdin (scan.rs, include_all_rules)
AllRulesRoutes == {"cfg-stream", "github", "colored", "lsp"}
RefFor(route, ref) == IF route \in AllRulesRoutes THEN ref ELSE { f \in ref : f.rule # Unused }

\* ---- projections: what a front end can show of a finding -------------------------------------
JsonOf(f) == <<f.rule, f.s, f.e, f.sp[1], f.sp[2], f.ep[1], f.ep[2], f.msg, f.sev>>
GithubOf(f) == <<f.rule, f.sp[1] + 1, f.ep[1] + 1, f.msg>>
GithubLevel(sev) == CASE sev = "error" -> "error" [] sev = "warning" -> "warning" [] sev = "info" -> "notice" [] OTHER -> "none"
ColoredOf(f) == <<f.rule, f.sp[1] + 1, f.sp[2] + 1, f.msg>>
ColoredLevel(sev) == CASE sev = "error" -> "error" [] sev = "warning" -> "warning" [] sev = "info" -> "note" [] OTHER -> "help"
LspSev(sev) == CASE sev = "error" -> 1 [] sev = "warning" -> 2 [] sev = "info" -> 3 [] OTHER -> 4
RuleOf(rules, id) == IF \E k \in 1..Len(rules) : rules[k].id = id
                     THEN rules[CHOOSE k \in 1..Len(rules) : rules[k].id = id]
                     ELSE [id |-> id, lang |-> "", sev |-> "hint", hasmsg |-> TRUE, hasnote |-> FALSE, note |-> ""]
\* the language server renders the message for its client: a rule without message shows its id, a note is appended
LspMsg(rules, f) == LET r == RuleOf(rules, f.rule)
                        m == IF r.hasmsg THEN f.msg ELSE f.rule IN
                    IF r.hasnote THEN m \o "\n\n" \o r.note ELSE m
\* col = 3: UTF-16 units as the protocol prescribes (utils.rs since the fix); col = 2: characters
LspOf(rules, f, col) == <<f.rule, f.sp[1], f.sp[col], f.ep[1], f.ep[col], LspMsg(rules, f), LspSev(f.sev)>>

\* ---- P -----------------------------------------------------------------------------------------
ExpectedJson(route, ref) == { JsonOf(f) : f \in RefFor(route, ref) }
ExpectedGithub(route, ref) == { GithubOf(f) : f \in RefFor(route, ref) }
ExpectedColored(ref) == { ColoredOf(f) : f \in RefFor("colored", ref) }
ExpectedLsp(rules, ref) == { LspOf(rules, f, 3) : f \in RefFor("lsp", ref) }
\* sg test, text listed as `valid`: the verdict is "N" (noisy) exactly when the rule has a finding
TestedRules(rules, lang) == { rules[k].id : k \in { k \in 1..Len(rules) : rules[k].lang = lang /\ rules[k].sev # "off" } }
ExpectedVerdict(ref, id) == IF \E f \in ref : f.rule = id THEN "N" ELSE "."

\* ---- I -----------------------------------------------------------------------------------------
\* since fix: --stdin scans with the enabled rules of the language of the first rule, like a file scan with -r
ImplJson(route, ref, raw) == ExpectedJson(route, ref)
\* GitHub annotations have no level for hints: print_rule returns early
ImplGithub(route, ref) == { GithubOf(f) : f \in { g \in RefFor(route, ref) : g.sev # "hint" } }
ImplLsp(rules, ref) == { LspOf(rules, f, 3) : f \in RefFor("lsp", ref) }
\* verify_valid runs the rule's matcher alone: suppression comments are not looked at
ImplVerdict(raw, id) == IF \E f \in raw : f.rule = id THEN "N" ELSE "."
=============================================================================
