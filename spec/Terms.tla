------------------------------- MODULE Terms -------------------------------
(***************************************************************************)
(* The bounded universe of the matcher models: sibling lists over a small  *)
(* symbol alphabet, one level of nesting, built into the node tables that  *)
(* Match.tla / Align.tla work on (the same tables the harness projects     *)
(* from real trees).                                                       *)
(*   candidate symbols  a b 1 , cm Na Nab                                  *)
(*   goal symbols       a b 1 , $A $$A $B $_ $$$ $$$A Na N$A N$$$           *)
(***************************************************************************)
EXTENDS Naturals, Sequences, SequencesExt, FiniteSets

KId == 1  KNum == 2  KComma == 3  KComment == 4  KList == 10

CandSyms == {"a", "b", "1", ",", "cm", "Na", "Nab"}
GoalSyms == {"a", "b", "1", ",", "$A", "$$A", "$B", "$_", "$$$", "$$$A", "Na", "N$A", "N$$$"}
\* the universe of the repeated-variable model (MC_C03 SpecRep): occurrences of A at both levels
RepGoalSyms == {"a", ",", "$A", "$$$A", "N$A", "N$$$A"}
RepCandSyms == {"a", "b", ",", "cm", "Na", "Nab"}

CLeaf(kid, nm, cm, t) == [kid |-> kid, nm |-> nm, cm |-> cm, t |-> t, kids |-> <<>>]
CandTerm(sym) ==
    CASE sym = "a"  -> CLeaf(KId, TRUE, FALSE, "a")
      [] sym = "b"  -> CLeaf(KId, TRUE, FALSE, "b")
      [] sym = "1"  -> CLeaf(KNum, TRUE, FALSE, "1")
      [] sym = ","  -> CLeaf(KComma, FALSE, FALSE, ",")
      [] sym = "cm" -> CLeaf(KComment, TRUE, TRUE, "/*c*/")
      [] sym = "Na" -> [kid |-> KList, nm |-> TRUE, cm |-> FALSE, t |-> "",
                        kids |-> <<CLeaf(KId, TRUE, FALSE, "a")>>]
      [] OTHER      -> [kid |-> KList, nm |-> TRUE, cm |-> FALSE, t |-> "",
                        kids |-> <<CLeaf(KId, TRUE, FALSE, "a"), CLeaf(KComma, FALSE, FALSE, ","),
                                   CLeaf(KId, TRUE, FALSE, "b")>>]

NoMV == [ty |-> "none", name |-> "", named |-> FALSE]
GT(kid, nm, t) == [ty |-> "T", kid |-> kid, nm |-> nm, t |-> t, mv |-> NoMV, kids |-> <<>>]
GM(ty, name, named) == [ty |-> "M", kid |-> 0, nm |-> FALSE, t |-> "",
                        mv |-> [ty |-> ty, name |-> name, named |-> named], kids |-> <<>>]
GI(kids) == [ty |-> "I", kid |-> KList, nm |-> TRUE, t |-> "", mv |-> NoMV, kids |-> kids]
GoalTerm(sym) ==
    CASE sym = "a"    -> GT(KId, TRUE, "a")
      [] sym = "b"    -> GT(KId, TRUE, "b")
      [] sym = "1"    -> GT(KNum, TRUE, "1")
      [] sym = ","    -> GT(KComma, FALSE, ",")
      [] sym = "$A"   -> GM("capture", "A", TRUE)
      [] sym = "$B"   -> GM("capture", "B", TRUE)
      [] sym = "$$A"  -> GM("capture", "A", FALSE)
      [] sym = "$_"   -> GM("dropped", "", TRUE)
      [] sym = "$$$"  -> GM("multiple", "", FALSE)
      [] sym = "$$$A" -> GM("multicap", "A", FALSE)
      [] sym = "Na"   -> GI(<<GT(KId, TRUE, "a")>>)
      [] sym = "N$A"  -> GI(<<GM("capture", "A", TRUE)>>)
      [] sym = "N$$$A" -> GI(<<GM("multicap", "A", FALSE)>>)
      [] OTHER        -> GI(<<GM("multiple", "", FALSE)>>)

\* ---- two-level table builder ---------------------------------------------
RECURSIVE StartId(_, _)
\* id of the k-th top-level term when the root has id 1
StartId(terms, k) == IF k = 1 THEN 2 ELSE StartId(terms, k - 1) + 1 + Len(terms[k-1].kids)

CandTable(syms) ==
    LET terms == [k \in 1..Len(syms) |-> CandTerm(syms[k])]
        root == [kid |-> KList, nm |-> TRUE, cm |-> FALSE, t |-> "", p |-> 0,
                 ch |-> [k \in 1..Len(terms) |-> StartId(terms, k)]]
        sub(k) == LET id == StartId(terms, k) tm == terms[k] IN
                  <<[kid |-> tm.kid, nm |-> tm.nm, cm |-> tm.cm, t |-> tm.t, p |-> 1,
                     ch |-> [m \in 1..Len(tm.kids) |-> id + m]]>>
                  \o [m \in 1..Len(tm.kids) |->
                        [kid |-> tm.kids[m].kid, nm |-> tm.kids[m].nm, cm |-> tm.kids[m].cm,
                         t |-> tm.kids[m].t, p |-> id, ch |-> <<>>]]
    IN <<root>> \o FlattenSeq([k \in 1..Len(terms) |-> sub(k)])

GoalTable(syms) ==
    LET terms == [k \in 1..Len(syms) |-> GoalTerm(syms[k])]
        root == [ty |-> "I", kid |-> KList, nm |-> TRUE, t |-> "", mv |-> NoMV,
                 ch |-> [k \in 1..Len(terms) |-> StartId(terms, k)]]
        sub(k) == LET id == StartId(terms, k) tm == terms[k] IN
                  <<[ty |-> tm.ty, kid |-> tm.kid, nm |-> tm.nm, t |-> tm.t, mv |-> tm.mv,
                     ch |-> [m \in 1..Len(tm.kids) |-> id + m]]>>
                  \o [m \in 1..Len(tm.kids) |->
                        [ty |-> tm.kids[m].ty, kid |-> tm.kids[m].kid, nm |-> tm.kids[m].nm,
                         t |-> tm.kids[m].t, mv |-> tm.kids[m].mv, ch |-> <<>>]]
    IN <<root>> \o FlattenSeq([k \in 1..Len(terms) |-> sub(k)])
=============================================================================
