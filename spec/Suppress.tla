------------------------------ MODULE Suppress ------------------------------
(***************************************************************************)
(* `ast-grep-ignore` comments (crates/config/src/combined.rs Suppressions, *)
(* CombinedScan::scan).                                                    *)
(*                                                                         *)
(* A file is a sequence of lines.  A line is                               *)
(*   [kind |-> "code", stmts |-> <<rule sets>>, trail |-> ids or NoComment]*)
(*   [kind |-> "comment", ids |-> ids]          (comment on its own line)  *)
(* where a statement is the set of rule ids that fire on it and ids is     *)
(* "all" (a bare ast-grep-ignore) or a set of rule ids.                    *)
(*                                                                         *)
(* P: the statement of C14.   I: the line-keyed table of the code.         *)
(***************************************************************************)
EXTENDS Naturals, Sequences, FiniteSets

\* id lists are sets of strings; two reserved singletons stand for "no comment" and "bare ast-grep-ignore"
NoComment == {"-"}
AllIds == {"*"}

Covers(ids, rule) == ids = AllIds \/ (ids # NoComment /\ rule \in ids)

\* findings: [line, k (statement index on the line), rule]
Findings(file) ==
    { [line |-> i, k |-> k, rule |-> r] :
        i \in { j \in 1..Len(file) : file[j].kind = "code" },
        k \in 1..2, r \in {"r1", "r2"} } \cap
    { f \in [line : 1..Len(file), k : 1..2, rule : {"r1", "r2"}] :
        file[f.line].kind = "code" /\ f.k <= Len(file[f.line].stmts) /\ f.rule \in file[f.line].stmts[f.k] }

\* comments: [line, own]
Comments(file) ==
    { [line |-> i, own |-> TRUE] : i \in { j \in 1..Len(file) : file[j].kind = "comment" } }
    \cup { [line |-> i, own |-> FALSE] : i \in { j \in 1..Len(file) : file[j].kind = "code" /\ file[j].trail # NoComment } }
IdsOf(file, c) == IF c.own THEN file[c.line].ids ELSE file[c.line].trail

\* ---------------------------------------------------------------- P ------
Governs(c, line) == (c.own /\ c.line + 1 = line) \/ (~c.own /\ c.line = line)
SuppressedP(file, f) == \E c \in Comments(file) : Governs(c, f.line) /\ Covers(IdsOf(file, c), f.rule)
ReportedP(file) == { f \in Findings(file) : ~SuppressedP(file, f) }
UnusedP(file) == { c \in Comments(file) :
                     ~\E f \in Findings(file) : Governs(c, f.line) /\ Covers(IdsOf(file, c), f.rule) }

\* ---------------------------------------------------------------- I ------
\* Suppressions::collect walks the tree in document order and keys each comment by the line it governs;
\* MULTI = FALSE models the pre-fix table with one entry per line (a later insert overwrites), MULTI = TRUE
\* the table that keeps every comment of a line.
CONSTANT MULTI
KeyOf(c) == IF c.own THEN c.line + 1 ELSE c.line
Governing(file, ln) == { c \in Comments(file) : KeyOf(c) = ln }
\* document order: the own-line comment above precedes the trailing comment of the line itself
LastOf(S) == CHOOSE c \in S : \A d \in S : d.line <= c.line
Table(file, ln) == LET G == Governing(file, ln) IN
                   IF G = {} THEN {} ELSE IF MULTI THEN G ELSE {LastOf(G)}
InTable(file) == UNION { Table(file, ln) : ln \in 1..(Len(file) + 1) }

SuppressorsI(file, f) == { c \in Table(file, f.line) : Covers(IdsOf(file, c), f.rule) }
ReportedI(file) == { f \in Findings(file) : SuppressorsI(file, f) = {} }
UsedI(file) == UNION { SuppressorsI(file, f) : f \in Findings(file) }
\* only comments that made it into the table can be reported as unused
UnusedI(file) == InTable(file) \ UsedI(file)
=============================================================================
