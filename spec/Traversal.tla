----------------------------- MODULE Traversal -----------------------------
(***************************************************************************)
(* The tree-sitter cursor and the three traversals of                      *)
(* crates/core/src/traversal.rs as a state machine, one action per call of *)
(* `Visit::next`'s loop body (= one `Traversal::next()` followed by        *)
(* `calibrate_for_match`).                                                 *)
(*                                                                         *)
(* I level: Pre (start_id, current_depth, step_down, trace_up,             *)
(*          calibrate_for_match), Post (trace_down, step_up, match_depth), *)
(*          Level (deque).                                                 *)
(* P level: PreOrder / PostOrder / LevelOrder of Tree.tla, and for the     *)
(*          overlap-free visit "outermost matches in document order".      *)
(***************************************************************************)
EXTENDS Tree, TLC

CONSTANTS MaxNodes        \* trees with 1..MaxNodes nodes

VARIABLES
    T,          \* node table (shape only)
    start,      \* node the traversal was created on
    algo,       \* "pre" | "post" | "level"
    M,          \* set of node ids on which the matcher succeeds
    reentrant,  \* Visitor.reentrant
    cur,        \* cursor position
    alive,      \* start_id.is_some()
    depth,      \* current_depth
    mdepth,     \* Post.match_depth
    deque,      \* Level.deque
    out,        \* nodes yielded by Traversal::next() so far       (history)
    hits        \* NodeMatches yielded by Visit::next() so far      (history)

vars == <<T, start, algo, M, reentrant, cur, alive, depth, mdepth, deque, out, hits>>

\* ---- the cursor, scoped to `start` (tree-sitter issue 567) ---------------
GotoFirstChild(i)  == FirstChild(T, i)
GotoNextSibling(i) == IF i = start THEN 0 ELSE NextSib(T, i)
GotoParent(i)      == IF i = start THEN 0 ELSE T[i].p

\* ---- Pre ----------------------------------------------------------------
RECURSIVE TraceUp(_, _)
\* Pre::trace_up: returns the new <<cur, depth, alive>>
TraceUp(c, d) ==
    IF c = start THEN [cur |-> c, depth |-> d, alive |-> FALSE]
    ELSE IF GotoNextSibling(c) # 0 THEN [cur |-> GotoNextSibling(c), depth |-> d, alive |-> TRUE]
    ELSE IF GotoParent(c) = 0 THEN [cur |-> c, depth |-> d - 1, alive |-> FALSE]   \* issue 713 guard
    ELSE TraceUp(GotoParent(c), d - 1)

\* Pre::next: yields cur, moves on
PreStep(c, d) ==
    IF GotoFirstChild(c) # 0 THEN [cur |-> GotoFirstChild(c), depth |-> d + 1, alive |-> TRUE]
    ELSE TraceUp(c, d)

\* Pre::calibrate_for_match(Some(md)) applied to the state after PreStep.
\* Faithful detail: the reverting goto_parent() does not decrement current_depth.
PreCalibrate(st, md) ==
    IF st.depth <= md \/ ~st.alive THEN st
    ELSE TraceUp(T[st.cur].p, st.depth)

\* ---- Post ---------------------------------------------------------------
RECURSIVE TraceDown(_, _)
TraceDown(c, d) == IF GotoFirstChild(c) = 0 THEN [cur |-> c, depth |-> d]
                   ELSE TraceDown(GotoFirstChild(c), d + 1)

PostStep(c, d) ==
    IF c = start THEN [cur |-> c, depth |-> d, alive |-> FALSE]
    ELSE IF GotoNextSibling(c) # 0
         THEN LET r == TraceDown(GotoNextSibling(c), d) IN [cur |-> r.cur, depth |-> r.depth, alive |-> TRUE]
         ELSE [cur |-> T[c].p, depth |-> d - 1, alive |-> TRUE]

RECURSIVE PostSkip(_, _)
\* the loop of Post::calibrate_for_match(None): returns <<cur, depth, alive, mdepth>>
PostSkip(c, d) ==
    IF c = start THEN [cur |-> c, depth |-> d, alive |-> FALSE, mdepth |-> d]
    ELSE IF GotoNextSibling(c) # 0
         THEN LET r == TraceDown(GotoNextSibling(c), d) IN
              [cur |-> r.cur, depth |-> r.depth, alive |-> TRUE, mdepth |-> d]
         ELSE PostSkip(T[c].p, d - 1)

\* ---- initial states: every tree, every start node, every matcher outcome --
AllShapes == UNION { { ShapeOf(v) : v \in ParVectors(n) } : n \in 1..MaxNodes }

Init ==
    /\ T \in AllShapes
    /\ start \in Ids(T)
    /\ algo \in {"pre", "post", "level"}
    /\ reentrant \in BOOLEAN
    /\ M \in IF reentrant THEN { {} } ELSE SUBSET DescSelf(T, start)
    /\ alive = TRUE
    /\ out = <<>> /\ hits = <<>> /\ mdepth = 0
    /\ deque = IF algo = "level" THEN <<start>> ELSE <<>>
    /\ IF algo = "post" THEN LET r == TraceDown(start, 0) IN cur = r.cur /\ depth = r.depth
       ELSE cur = start /\ depth = 0

\* one iteration of Visit::next's loop with the Pre traversal
VisitPre ==
    /\ algo = "pre" /\ alive
    /\ LET md == depth
           st == PreStep(cur, depth)
           st2 == IF ~reentrant /\ cur \in M THEN PreCalibrate(st, md) ELSE st IN
       /\ out' = Append(out, cur)
       /\ hits' = IF cur \in M THEN Append(hits, cur) ELSE hits
       /\ cur' = st2.cur /\ depth' = st2.depth /\ alive' = st2.alive
    /\ UNCHANGED <<T, start, algo, M, reentrant, mdepth, deque>>

\* one iteration with the Post traversal
VisitPost ==
    /\ algo = "post" /\ alive
    /\ LET md == depth
           st == PostStep(cur, depth) IN
       /\ out' = Append(out, cur)
       /\ hits' = IF cur \in M THEN Append(hits, cur) ELSE hits
       /\ IF reentrant THEN
              cur' = st.cur /\ depth' = st.depth /\ alive' = st.alive /\ mdepth' = mdepth
          ELSE IF cur \in M THEN         \* calibrate(Some(md)): only records the depth
              cur' = st.cur /\ depth' = st.depth /\ alive' = st.alive /\ mdepth' = md
          ELSE IF st.depth >= mdepth \/ ~st.alive THEN
              cur' = st.cur /\ depth' = st.depth /\ alive' = st.alive /\ mdepth' = mdepth
          ELSE LET r == PostSkip(st.cur, st.depth) IN
              cur' = r.cur /\ depth' = r.depth /\ alive' = r.alive /\ mdepth' = r.mdepth
    /\ UNCHANGED <<T, start, algo, M, reentrant, deque>>

\* Level::next
VisitLevel ==
    /\ algo = "level" /\ deque # <<>>
    /\ out' = Append(out, Head(deque))
    /\ hits' = IF Head(deque) \in M THEN Append(hits, Head(deque)) ELSE hits
    /\ deque' = Tail(deque) \o T[Head(deque)].ch
    /\ UNCHANGED <<T, start, algo, M, reentrant, cur, alive, depth, mdepth>>

Next == VisitPre \/ VisitPost \/ VisitLevel

Done == IF algo = "level" THEN deque = <<>> ELSE ~alive

Spec == Init /\ [][Next]_vars

\* ---------------------------------------------------------- properties ----
\* C19: each traversal visits every node of the subtree exactly once, in the specified order
OrderOK ==
    (Done /\ reentrant) =>
        out = CASE algo = "pre"  -> PreOrder(T, start)
                [] algo = "post" -> PostOrder(T, start)
                [] OTHER         -> LevelOrder(T, start)

\* never leaves the subtree, never repeats (holds in every state, also with calibration)
Inside == /\ \A k \in 1..Len(out) : out[k] \in DescSelf(T, start)
          /\ NoDup(out)
          /\ (algo # "level" => cur \in DescSelf(T, start))

\* every traversal terminates: the number of yielded nodes is bounded by the subtree
Bounded == Len(out) <= Cardinality(DescSelf(T, start))

\* C01 / C06 (overlap-free traversal): Pre + non-reentrant = outermost matches in document order
Outermost(S) == { m \in S : ~\E a \in S : a # m /\ m \in Desc(T, a) }
PreOutermostOK ==
    (Done /\ algo = "pre" /\ ~reentrant) =>
        hits = SelectSeq(PreOrder(T, start), LAMBDA n : n \in Outermost(M))

\* What the Post non-reentrant visit is documented to do ("bottom-up, skip ancestors of a match").
\* NOT a listed property; kept as a documented expectation, checked in MC_Traversal_post.cfg only.
Innermost(S) == { m \in S : ~\E d \in S : d # m /\ d \in Desc(T, m) }
PostInnermostOK ==
    (Done /\ algo = "post" /\ ~reentrant) =>
        hits = SelectSeq(PostOrder(T, start), LAMBDA n : n \in Innermost(M))

\* calibrate_for_match(Some(depth)) has `debug_assert!(depth >= self.match_depth)`
PostDebugAssert == (algo = "post" /\ ~reentrant /\ alive /\ cur \in M) => depth >= mdepth

\* hide the history from the fingerprint?  No: out/hits are functions of the path here (the machine
\* is deterministic after Init), so they add no states.
=============================================================================
